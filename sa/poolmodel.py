"""Shared structural model of the DHCP lease pool (pool.rs): SQL sites, lease construction sites,
row -> value flow, free-address checks.  Used by C01, C09, C10, C18, C20."""
from .facts import callee_name, op_place
from .prov import strip, norm, subterms, show
from .cfg import cfg_of
from .sql import sql_sites, conjuncts, mentions_param
from .util import terms, find_aggs, capture_binding, name_matches

NOW_OK_CALLS = ("std::time::SystemTime::now", "std::time::SystemTime::duration_since", "std::time::Duration::as_secs",
                "std::result::Result::<T, E>::expect", "std::result::Result::<T, E>::unwrap",
                "std::result::Result::<T, E>::unwrap_or_default")


def flatten_phi(t):
    if t[0] == "phi":
        out = []
        for x in t[1]:
            out.extend(flatten_phi(x))
        return out
    return [t]


def is_now_seconds(t):
    """term is exactly 'seconds since the epoch, now' (no offset, no scaling); returns (ok, reason)"""
    t = norm(t)
    for s in subterms(t):
        if s[0] == "bin":
            return False, "arithmetic %s on the timestamp" % s[1]
    for s in subterms(t):
        k = s[0]
        if k == "call":
            if s[1] not in NOW_OK_CALLS:
                return False, "calls %s" % (s[1],)
        elif k == "bin":
            return False, "arithmetic %s on the timestamp" % s[1]
        elif k == "un":
            return False, "operator %s on the timestamp" % s[1]
        elif k == "cast":
            if s[1] != "IntToInt":
                return False, "cast %s" % s[1]
        elif k == "const":
            v = s[1]
            if isinstance(v, tuple) and v[0] == "named" and v[1].endswith("UNIX_EPOCH"):
                continue
            if isinstance(v, str):
                continue  # expect() message
            return False, "constant %r in the timestamp" % (v,)
        elif k in ("param", "phi", "rec", "unknown", "field", "payload", "agg", "index", "downcast", "await", "discr"):
            return False, "not derived from the clock (%s)" % show(s)[:80]
    if not any(s[0] == "call" and s[1] == "std::time::SystemTime::now" for s in subterms(t)):
        return False, "no call to SystemTime::now"
    return True, ""


def caller_arg_terms(P, cg, body, local):
    """terms bound to parameter `local` of `body` at every call site in the program (context-insensitive)"""
    out = []
    for cb, bb, t in cg.callers(body.id):
        k = local - 1
        if k < len(t["args"]):
            T = terms(P, cb)
            out.append((cb, bb, norm(T.at_term(t["args"][k], bb))))
    return out


def resolve_params(P, cg, body, term, depth=0):
    """replace a bare parameter term by the terms callers pass (one level per step, bounded depth);
    returns a list of (term, chain) alternatives"""
    t = norm(term)
    if t[0] == "param" and depth < 4 and 1 <= t[1] <= body.arg_count:
        alts = []
        for cb, bb, at in caller_arg_terms(P, cg, body, t[1]):
            alts.extend(resolve_params(P, cg, cb, at, depth + 1))
        if alts:
            return alts
    return [(t, body)]


def query_call_in(term):
    """the rusqlite query call terms inside a term: list of call terms"""
    out = []
    for s in subterms(term):
        if s[0] == "call" and isinstance(s[1], str) and "rusqlite::Connection" in s[1]:
            out.append(s)
    return out


def spine(t):
    """outermost-to-innermost list of wrapper steps following payload/field/first-argument"""
    out = []
    t = norm(t)
    for _ in range(60):
        k = t[0]
        if k == "payload":
            out.append(("payload", t[1]))
            t = t[2]
        elif k == "field":
            out.append(("field", t[2]))
            t = t[1]
        elif k == "await":
            out.append(("await",))
            t = t[1]
        elif k == "call" and t[2]:
            out.append(("call", t[1], t))
            t = t[2][0]
        else:
            out.append(("leaf", t))
            break
    return out


def closure_def_of(term):
    t = norm(term)
    if t[0] == "agg" and t[1].startswith("closure:"):
        return t[1][len("closure:"):]
    # a named function used where a closure could stand (`.map(render_lease)`): its body plays the closure's role
    if t[0] == "const" and isinstance(t[1], tuple) and t[1] and t[1][0] == "fn" and isinstance(t[1][1], str):
        return t[1][1]
    return None


def closure_row_columns(P, closure_id, stmt=None):
    """for a row-mapping closure |row| Ok(Some((row.get(i)?, ...))) or Ok((..)) or Ok(Struct{..}):
    returns (shape, {tuple index or field name: column index}, always_some: bool|None)"""
    b = P.bodies.get(closure_id)
    if b is None:
        return None
    T = terms(P, b)
    cfg = cfg_of(b)
    cols = {}
    shape = None
    always_some = None
    for bb, idx, s in b.stmts():
        if s["p"] != (0,) or "rv" not in s:
            continue
        t = norm(T.rvalue(s["rv"], bb, idx))
        if t[0] != "agg" or not t[1].endswith("Result") or t[2] != "Ok":
            continue
        v = t[3][0][1]
        if v[0] == "agg" and v[1].endswith("Option"):
            if v[2] == "Some":
                always_some = True if always_some is None else always_some
                v = v[3][0][1]
            else:
                always_some = False
                continue
        if v[0] == "agg":
            shape = v[1]
            for f, x in v[3]:
                for sub in subterms(x):
                    if sub[0] == "call" and isinstance(sub[1], str) and sub[1].startswith("rusqlite::Row") and sub[1].endswith("::get"):
                        c = norm(sub[2][1])
                        while c[0] in ("ref", "deref"):
                            c = norm(c[1])
                        if c[0] == "const" and isinstance(c[1], int) and not isinstance(c[1], bool):
                            cols[f] = c[1]
                        elif c[0] == "const" and isinstance(c[1], str) and stmt is not None and stmt.get("items"):
                            # row.get("name"): the position of the result column with that name
                            for k, (e_, al) in enumerate(stmt["items"]):
                                if (al or (e_[1] if e_[0] == "col" else None)) == c[1]:
                                    cols[f] = k
                                    break
                        break
    return shape, cols, always_some


def mapper_maps_only_norows(P, fn_id):
    """the error mapper turns exactly QueryReturnedNoRows into Ok(None): every Ok(None) it builds lies on the
    true edge of `e == QueryReturnedNoRows` (or in the match arm for that variant)"""
    b = P.bodies.get(fn_id)
    if b is None:
        return False
    T = terms(P, b)
    cfg = cfg_of(b)
    none_sites = []
    for bb, idx, s in b.stmts():
        if s["p"] == (0,) and "rv" in s:
            t = norm(T.rvalue(s["rv"], bb, idx))
            if t[0] == "agg" and t[2] == "Ok" and t[3][0][1][0] == "agg" and t[3][0][1][2] == "None":
                none_sites.append(bb)
    if not none_sites:
        return False
    guards = []
    for bb, tm in b.terms():
        if tm["k"] != "switch":
            continue
        d = norm(T.at_term(tm["discr"], bb))
        if d[0] == "call" and d[1].endswith("::eq") and any(
                x[0] == "agg" and x[1] == "rusqlite::Error" and x[2] == "QueryReturnedNoRows" for x in d[2]):
            for v, tgt in cfg.switch_edges(bb):
                if v != 0:
                    guards.append((bb, tgt))
        if d[0] == "discr":
            # match e { QueryReturnedNoRows => ... }: find the variant index by name is not available; skip
            pass
    return all(any(cfg.edge_dominates(g, s) for g in guards) for s in none_sites)


class PoolModel:
    def __init__(self, P, cg):
        self.P = P
        self.cg = cg
        self.sites = sql_sites(P)
        self.by_call = {}
        for s in self.sites:
            self.by_call[(s.body.id, s.bb)] = s

    def site_of_call_term(self, body, call_term):
        return self.by_call.get((body.id, call_term[3]))

    def lease_sql(self):
        return [s for s in self.sites if s.stmt is not None and s.stmt.get("table") == "leases"]

    def norow_edges(self, body, site):
        """CFG edges of `body` taken exactly when the query at `site` found no row.
        Accepted idioms: q.or_else(<mapper>)?.is_none() / .is_some() / match on the Option; q.optional()...;
        returns list of ((switch_bb, target), how)"""
        P = self.P
        T = terms(P, body)
        cfg = cfg_of(body)
        out = []
        for bb, tm in body.terms():
            if tm["k"] != "switch":
                continue
            d = norm(T.at_term(tm["discr"], bb))
            inner = None
            mode = None
            if d[0] == "call" and d[1] in ("std::option::Option::<T>::is_none", "std::option::Option::<T>::is_some") and d[2]:
                inner = d[2][0]
                mode = d[1].rsplit("::", 1)[1]
            elif d[0] == "discr":
                inner = d[1]
                mode = "discr"
            if inner is None:
                continue
            sp = spine(inner)
            # expected: payload '?' -> call or_else/optional... -> query call at this site
            qcalls = [x for x in sp if x[0] == "call" and "rusqlite::Connection" in x[1]]
            if not qcalls or qcalls[0][2][3] != site.bb:
                continue
            wrappers = [x for x in sp[:sp.index(qcalls[0])]]
            ok_wrappers = True
            mapped = False
            for w in wrappers:
                if w[0] == "payload" and w[1] in ("?", "Ok", "Continue"):
                    continue
                if w[0] == "call":
                    n = w[1]
                    if n == "std::result::Result::<T, E>::or_else":
                        fn = norm(w[2][2][1])
                        if fn[0] == "const" and isinstance(fn[1], tuple) and fn[1][0] == "fn" and mapper_maps_only_norows(P, fn[1][1]):
                            mapped = True
                            continue
                    if n.endswith("OptionalExtension<T>>::optional") or n.endswith("::optional"):
                        mapped = True
                        continue
                    if n == "std::result::Result::<T, E>::map_err":
                        continue
                ok_wrappers = False
            if not ok_wrappers or not mapped:
                continue
            # the row closure must yield Some for every row (when it yields an Option at all)
            cdef = closure_def_of(qcalls[0][2][2][3]) if len(qcalls[0][2][2]) > 3 else None
            info = closure_row_columns(P, cdef, site.stmt) if cdef else None
            if info is not None and info[2] is False:
                continue
            for v, tgt in cfg.switch_edges(bb):
                if mode == "is_none" and v != 0:
                    out.append(((bb, tgt), "is_none()"))
                elif mode == "is_some" and v == 0:
                    out.append(((bb, tgt), "!is_some()"))
            if mode == "discr":
                from .util import discr_edges
                for e in discr_edges(cfg, bb, 0):
                    out.append((e, "match None"))
        return out

    def row_edges(self, body, site):
        """edges taken exactly when the query found a row (complement idioms of norow_edges)"""
        cfg = cfg_of(body)
        no = self.norow_edges(body, site)
        out = []
        for (bb, tgt), how in no:
            for v, t2 in cfg.switch_edges(bb):
                if t2 != tgt:
                    out.append(((bb, t2), "not " + how))
        return out
