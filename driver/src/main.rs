// erbium-facts: rustc_private driver that dumps the type-checked program
// (built MIR with resolved callees, field names, constants, ADT and impl
// tables) of every workspace crate as JSON, for the Python analysers in
// /verif/sa.  It never changes what rustc does: after the dump the
// compilation continues normally.
//
// Invoked by cargo through RUSTC_WORKSPACE_WRAPPER: argv[1] is the real
// rustc path (dropped), the rest is the rustc command line.
// Output: $ERBIUM_FACTS_DIR/<crate>-<kind>-<pid>.json (one write per process).

#![feature(rustc_private)]
#![allow(rustc::internal)]

extern crate rustc_abi;
extern crate rustc_data_structures;
extern crate rustc_driver;
extern crate rustc_hir;
extern crate rustc_interface;
extern crate rustc_middle;
extern crate rustc_span;

use rustc_driver::{Callbacks, Compilation};
use rustc_hir::def::DefKind;
use rustc_hir::def_id::{DefId, LocalDefId};
use rustc_middle::mir;
use rustc_middle::ty::print::with_no_trimmed_paths;
use rustc_middle::ty::{self, Ty, TyCtxt};
use rustc_span::Span;
use std::fmt::Write as _;

// ---------------------------------------------------------------- JSON writer

struct J {
    s: String,
}

impl J {
    fn new() -> J {
        J { s: String::with_capacity(1 << 20) }
    }
    fn raw(&mut self, t: &str) {
        self.s.push_str(t);
    }
    fn str(&mut self, t: &str) {
        self.s.push('"');
        for c in t.chars() {
            match c {
                '"' => self.s.push_str("\\\""),
                '\\' => self.s.push_str("\\\\"),
                '\n' => self.s.push_str("\\n"),
                '\r' => self.s.push_str("\\r"),
                '\t' => self.s.push_str("\\t"),
                c if (c as u32) < 0x20 => {
                    let _ = write!(self.s, "\\u{:04x}", c as u32);
                }
                c => self.s.push(c),
            }
        }
        self.s.push('"');
    }
    fn key(&mut self, k: &str) {
        self.str(k);
        self.s.push(':');
    }
    fn kv_str(&mut self, k: &str, v: &str) {
        self.key(k);
        self.str(v);
    }
    fn kv_raw(&mut self, k: &str, v: &str) {
        self.key(k);
        self.raw(v);
    }
    fn comma(&mut self) {
        self.s.push(',');
    }
    fn trim_comma(&mut self) {
        if self.s.ends_with(',') {
            self.s.pop();
        }
    }
}

fn hex(bytes: &[u8]) -> String {
    let mut s = String::with_capacity(bytes.len() * 2);
    for b in bytes {
        let _ = write!(s, "{:02x}", b);
    }
    s
}

// ---------------------------------------------------------------- dumper

struct Dumper<'tcx> {
    tcx: TyCtxt<'tcx>,
    j: J,
}

impl<'tcx> Dumper<'tcx> {
    fn ty_str(&self, t: Ty<'tcx>) -> String {
        with_no_trimmed_paths!(t.to_string())
    }

    fn path(&self, d: DefId) -> String {
        with_no_trimmed_paths!(self.tcx.def_path_str(d))
    }

    fn span_str(&self, sp: Span) -> String {
        // attribute macro-generated code to the outermost call site
        let sp = sp.source_callsite();
        let sm = self.tcx.sess.source_map();
        let lo = sm.lookup_char_pos(sp.lo());
        let hi = sm.lookup_char_pos(sp.hi());
        let file = match &lo.file.name {
            rustc_span::FileName::Real(r) => match r.local_path() {
                Some(p) => p.to_string_lossy().to_string(),
                None => format!("{:?}", lo.file.name),
            },
            other => format!("{:?}", other),
        };
        format!("{}:{}:{}-{}:{}", file, lo.line, lo.col.0 + 1, hi.line, hi.col.0 + 1)
    }

    // ---- places

    fn place(&mut self, body: &mir::Body<'tcx>, p: mir::Place<'tcx>) {
        self.place_ref(body, p.as_ref());
    }

    fn place_ref(&mut self, body: &mir::Body<'tcx>, p: mir::PlaceRef<'tcx>) {
        let tcx = self.tcx;
        let mut out = String::new();
        let _ = write!(out, "[{}", p.local.as_u32());
        for (base, elem) in p.iter_projections() {
            out.push(',');
            let mut e = String::new();
            match elem {
                mir::ProjectionElem::Deref => e.push('*'),
                mir::ProjectionElem::Field(idx, _) => {
                    let bty = base.ty(&body.local_decls, tcx);
                    let mut name: Option<String> = None;
                    if let ty::Adt(adt, _) = bty.ty.kind() {
                        let vidx = bty.variant_index.unwrap_or(rustc_abi::FIRST_VARIANT);
                        if !adt.is_union() || true {
                            let v = adt.variant(vidx);
                            if idx.as_usize() < v.fields.len() {
                                name = Some(v.fields[idx].name.to_string());
                            }
                        }
                    }
                    match name {
                        Some(n) => {
                            let _ = write!(e, ".{}", n);
                        }
                        None => {
                            let _ = write!(e, ".{}", idx.as_u32());
                        }
                    }
                }
                mir::ProjectionElem::Index(l) => {
                    let _ = write!(e, "[_{}]", l.as_u32());
                }
                mir::ProjectionElem::ConstantIndex { offset, from_end, .. } => {
                    if from_end {
                        let _ = write!(e, "[-{}]", offset);
                    } else {
                        let _ = write!(e, "[{}]", offset);
                    }
                }
                mir::ProjectionElem::Subslice { from, to, from_end } => {
                    let _ = write!(e, "[{}:{}{}]", from, if from_end { "-" } else { "" }, to);
                }
                mir::ProjectionElem::Downcast(sym, vidx) => {
                    let mut name = sym.map(|s| s.to_string());
                    if name.is_none() {
                        let bty = base.ty(&body.local_decls, tcx);
                        if let ty::Adt(adt, _) = bty.ty.kind() {
                            name = Some(adt.variant(vidx).name.to_string());
                        }
                    }
                    let _ = write!(e, "@{}", name.unwrap_or_else(|| format!("{}", vidx.as_u32())));
                }
                mir::ProjectionElem::OpaqueCast(_) => e.push_str("as?"),
                mir::ProjectionElem::UnwrapUnsafeBinder(_) => e.push_str("unwrap_binder"),
            }
            let mut tmp = J { s: String::new() };
            tmp.str(&e);
            out.push_str(&tmp.s);
        }
        out.push(']');
        self.j.raw(&out);
    }

    // ---- constants

    fn read_alloc_bytes(&self, alloc_id: rustc_middle::mir::interpret::AllocId, start: usize, len: usize) -> Option<Vec<u8>> {
        match self.tcx.try_get_global_alloc(alloc_id)? {
            rustc_middle::mir::interpret::GlobalAlloc::Memory(a) => {
                let a = a.inner();
                if start + len > a.len() {
                    return None;
                }
                Some(a.inspect_with_uninit_and_ptr_outside_interpreter(start..start + len).to_vec())
            }
            _ => None,
        }
    }

    fn const_value(&mut self, val: mir::ConstValue, t: Ty<'tcx>) {
        let tcx = self.tcx;
        let tys = self.ty_str(t);
        self.j.raw("{");
        self.j.kv_str("ty", &tys);
        self.j.comma();
        match val {
            mir::ConstValue::Scalar(mir::interpret::Scalar::Int(si)) => {
                if t.is_bool() {
                    self.j.kv_raw("bool", if si.try_to_bool().unwrap_or(false) { "true" } else { "false" });
                } else if t.is_char() {
                    let v = si.to_bits_unchecked();
                    self.j.kv_raw("char", &format!("{}", v));
                } else if t.is_integral() {
                    let size = si.size();
                    let bits = si.to_bits(size);
                    let s = if t.is_signed() {
                        format!("{}", size.sign_extend(bits) as i128)
                    } else {
                        format!("{}", bits)
                    };
                    self.j.kv_str("int", &s);
                } else {
                    // newtype-wrapped scalars (e.g. struct MessageType(u8) consts), floats, ...
                    let size = si.size();
                    self.j.kv_str("bits", &format!("{}", si.to_bits(size)));
                }
            }
            mir::ConstValue::Scalar(mir::interpret::Scalar::Ptr(ptr, _)) => {
                // &[u8; N] byte-string literals and friends
                let mut done = false;
                if let ty::Ref(_, inner, _) = t.kind() {
                    if let ty::Array(elem, n) = inner.kind() {
                        if *elem == tcx.types.u8 {
                            if let Some(n) = n.try_to_target_usize(tcx) {
                                let (prov, off) = ptr.prov_and_relative_offset();
                                if let Some(b) = self.read_alloc_bytes(prov.alloc_id(), off.bytes() as usize, n as usize) {
                                    self.j.kv_str("bytes", &hex(&b));
                                    done = true;
                                }
                            }
                        }
                    }
                }
                if !done {
                    let (prov, _off) = ptr.prov_and_relative_offset();
                    if let Some(rustc_middle::mir::interpret::GlobalAlloc::Static(did)) =
                        tcx.try_get_global_alloc(prov.alloc_id())
                    {
                        let p = self.path(did);
                        self.j.kv_str("static", &p);
                        done = true;
                    }
                }
                if !done {
                    self.j.kv_raw("ptr", "true");
                }
            }
            mir::ConstValue::ZeroSized => {
                if let ty::FnDef(did, gargs) = t.kind() {
                    let p = self.path(*did);
                    self.j.kv_str("fn", &p);
                    self.j.comma();
                    self.j.key("gargs");
                    self.j.raw("[");
                    for a in gargs.iter() {
                        let s = with_no_trimmed_paths!(a.to_string());
                        self.j.str(&s);
                        self.j.comma();
                    }
                    self.j.trim_comma();
                    self.j.raw("]");
                } else {
                    self.j.kv_raw("zst", "true");
                }
            }
            mir::ConstValue::Slice { .. } | mir::ConstValue::Indirect { .. } => {
                let mut done = false;
                if let ty::Ref(_, inner, _) = t.kind() {
                    let is_str = inner.is_str();
                    let is_u8_slice = matches!(inner.kind(), ty::Slice(e) if *e == tcx.types.u8);
                    if is_str || is_u8_slice {
                        if let Some(b) = val.try_get_slice_bytes_for_diagnostics(tcx) {
                            if is_str {
                                self.j.kv_str("str", &String::from_utf8_lossy(b));
                            } else {
                                self.j.kv_str("bytes", &hex(b));
                            }
                            done = true;
                        }
                    }
                }
                if !done {
                    if let mir::ConstValue::Indirect { alloc_id, offset } = val {
                        // small by-value aggregates (arrays of u8, newtypes): dump raw bytes when size is known
                        let mut dumped = false;
                        if let ty::Array(elem, n) = t.kind() {
                            if *elem == tcx.types.u8 {
                                if let Some(n) = n.try_to_target_usize(tcx) {
                                    if let Some(b) = self.read_alloc_bytes(alloc_id, offset.bytes() as usize, n as usize) {
                                        self.j.kv_str("bytes", &hex(&b));
                                        dumped = true;
                                    }
                                }
                            }
                        }
                        if !dumped {
                            self.j.kv_raw("indirect", "true");
                        }
                    } else {
                        self.j.kv_raw("slice", "true");
                    }
                }
            }
        }
        self.j.raw("}");
    }

    fn constant(&mut self, owner: DefId, c: &mir::ConstOperand<'tcx>) {
        let tcx = self.tcx;
        match c.const_ {
            mir::Const::Val(v, t) => self.const_value(v, t),
            mir::Const::Ty(t, ct) => {
                if let ty::ConstKind::Value(cv) = ct.kind() {
                    if !ct.has_non_region_param_pub() {
                        let v = tcx.valtree_to_const_val(cv);
                        self.const_value(v, t);
                        return;
                    }
                }
                let tys = self.ty_str(t);
                self.j.raw("{");
                self.j.kv_str("ty", &tys);
                self.j.comma();
                self.j.kv_str("opaque", &format!("{:?}", ct));
                self.j.raw("}");
            }
            mir::Const::Unevaluated(u, t) => {
                // never evaluated here: evaluation would steal mir_built of the
                // const's body; named consts are evaluated in a later pass
                let _ = owner;
                let tys = self.ty_str(t);
                let p = self.path(u.def);
                self.j.raw("{");
                self.j.kv_str("ty", &tys);
                self.j.comma();
                self.j.kv_str("uneval", &p);
                if let Some(pr) = u.promoted {
                    self.j.comma();
                    self.j.kv_raw("promoted", &format!("{}", pr.as_u32()));
                }
                self.j.raw("}");
            }
        }
    }

    fn operand(&mut self, owner: DefId, body: &mir::Body<'tcx>, o: &mir::Operand<'tcx>) {
        match o {
            mir::Operand::Copy(p) => {
                self.j.raw("{\"c\":");
                self.place(body, *p);
                self.j.raw("}");
            }
            mir::Operand::Move(p) => {
                self.j.raw("{\"m\":");
                self.place(body, *p);
                self.j.raw("}");
            }
            mir::Operand::Constant(c) => {
                self.j.raw("{\"k\":");
                self.constant(owner, c);
                self.j.raw("}");
            }
            #[allow(unreachable_patterns)]
            _ => {
                self.j.raw("{\"k\":{\"ty\":\"bool\",\"runtime_check\":true}}");
            }
        }
    }

    // ---- rvalues

    fn rvalue(&mut self, owner: DefId, body: &mir::Body<'tcx>, rv: &mir::Rvalue<'tcx>) {
        let tcx = self.tcx;
        self.j.raw("{");
        match rv {
            mir::Rvalue::Use(o, ..) => {
                self.j.kv_str("k", "use");
                self.j.comma();
                self.j.key("op");
                self.operand(owner, body, o);
            }
            mir::Rvalue::Repeat(o, n) => {
                self.j.kv_str("k", "repeat");
                self.j.comma();
                self.j.key("op");
                self.operand(owner, body, o);
                self.j.comma();
                match n.try_to_target_usize(tcx) {
                    Some(v) => self.j.kv_raw("n", &format!("{}", v)),
                    None => self.j.kv_raw("n", "null"),
                }
            }
            mir::Rvalue::Ref(_, bk, p) => {
                self.j.kv_str("k", "ref");
                self.j.comma();
                let m = match bk {
                    mir::BorrowKind::Shared => "shared",
                    mir::BorrowKind::Fake(_) => "fake",
                    mir::BorrowKind::Mut { .. } => "mut",
                };
                self.j.kv_str("bk", m);
                self.j.comma();
                self.j.key("place");
                self.place(body, *p);
            }
            mir::Rvalue::ThreadLocalRef(d) => {
                self.j.kv_str("k", "tls");
                self.j.comma();
                let p = self.path(*d);
                self.j.kv_str("def", &p);
            }
            mir::Rvalue::RawPtr(kind, p) => {
                self.j.kv_str("k", "rawptr");
                self.j.comma();
                self.j.kv_str("bk", &format!("{:?}", kind));
                self.j.comma();
                self.j.key("place");
                self.place(body, *p);
            }
            mir::Rvalue::Cast(kind, o, t) => {
                self.j.kv_str("k", "cast");
                self.j.comma();
                let ks = match kind {
                    mir::CastKind::IntToInt => "IntToInt".to_string(),
                    mir::CastKind::PointerCoercion(pc, _) => format!("Coerce({:?})", pc),
                    other => format!("{:?}", other),
                };
                self.j.kv_str("kind", &ks);
                self.j.comma();
                self.j.key("op");
                self.operand(owner, body, o);
                self.j.comma();
                let from = self.ty_str(o.ty(&body.local_decls, tcx));
                self.j.kv_str("from", &from);
                self.j.comma();
                let to = self.ty_str(*t);
                self.j.kv_str("to", &to);
            }
            mir::Rvalue::BinaryOp(op, ab) => {
                self.j.kv_str("k", "bin");
                self.j.comma();
                self.j.kv_str("op", &format!("{:?}", op));
                self.j.comma();
                self.j.key("a");
                self.operand(owner, body, &ab.0);
                self.j.comma();
                self.j.key("b");
                self.operand(owner, body, &ab.1);
                self.j.comma();
                let t = self.ty_str(ab.0.ty(&body.local_decls, tcx));
                self.j.kv_str("ty", &t);
            }
            mir::Rvalue::UnaryOp(op, a) => {
                self.j.kv_str("k", "un");
                self.j.comma();
                self.j.kv_str("op", &format!("{:?}", op));
                self.j.comma();
                self.j.key("a");
                self.operand(owner, body, a);
                self.j.comma();
                let t = self.ty_str(a.ty(&body.local_decls, tcx));
                self.j.kv_str("ty", &t);
            }
            mir::Rvalue::Discriminant(p) => {
                self.j.kv_str("k", "discr");
                self.j.comma();
                self.j.key("place");
                self.place(body, *p);
                self.j.comma();
                let t = self.ty_str(p.ty(&body.local_decls, tcx).ty);
                self.j.kv_str("ty", &t);
            }
            mir::Rvalue::Aggregate(kind, ops) => {
                self.j.kv_str("k", "agg");
                self.j.comma();
                match &**kind {
                    mir::AggregateKind::Array(t) => {
                        self.j.kv_str("akind", "array");
                        self.j.comma();
                        let t = self.ty_str(*t);
                        self.j.kv_str("elem", &t);
                    }
                    mir::AggregateKind::Tuple => {
                        self.j.kv_str("akind", "tuple");
                    }
                    mir::AggregateKind::Adt(did, vidx, _, _, active) => {
                        self.j.kv_str("akind", "adt");
                        self.j.comma();
                        let p = self.path(*did);
                        self.j.kv_str("adt", &p);
                        self.j.comma();
                        let adt = tcx.adt_def(*did);
                        let v = adt.variant(*vidx);
                        self.j.kv_str("variant", v.name.as_str());
                        self.j.comma();
                        self.j.key("fields");
                        self.j.raw("[");
                        if let Some(f) = active {
                            self.j.str(v.fields[*f].name.as_str());
                        } else {
                            for f in v.fields.iter() {
                                self.j.str(f.name.as_str());
                                self.j.comma();
                            }
                            self.j.trim_comma();
                        }
                        self.j.raw("]");
                    }
                    mir::AggregateKind::Closure(did, _) => {
                        self.j.kv_str("akind", "closure");
                        self.j.comma();
                        let p = self.path(*did);
                        self.j.kv_str("def", &p);
                    }
                    mir::AggregateKind::Coroutine(did, _) => {
                        self.j.kv_str("akind", "coroutine");
                        self.j.comma();
                        let p = self.path(*did);
                        self.j.kv_str("def", &p);
                    }
                    mir::AggregateKind::CoroutineClosure(did, _) => {
                        self.j.kv_str("akind", "coroutine_closure");
                        self.j.comma();
                        let p = self.path(*did);
                        self.j.kv_str("def", &p);
                    }
                    mir::AggregateKind::RawPtr(..) => {
                        self.j.kv_str("akind", "rawptr");
                    }
                }
                self.j.comma();
                self.j.key("ops");
                self.j.raw("[");
                for o in ops.iter() {
                    self.operand(owner, body, o);
                    self.j.comma();
                }
                self.j.trim_comma();
                self.j.raw("]");
            }
            mir::Rvalue::CopyForDeref(p) => {
                self.j.kv_str("k", "use");
                self.j.comma();
                self.j.raw("\"op\":{\"c\":");
                self.place(body, *p);
                self.j.raw("}");
            }
            mir::Rvalue::WrapUnsafeBinder(o, _) => {
                self.j.kv_str("k", "use");
                self.j.comma();
                self.j.key("op");
                self.operand(owner, body, o);
            }
        }
        self.j.raw("}");
    }

    // ---- callee

    fn callee(&mut self, owner: DefId, body: &mir::Body<'tcx>, func: &mir::Operand<'tcx>) {
        let tcx = self.tcx;
        let fty = func.ty(&body.local_decls, tcx);
        self.j.raw("{");
        if let ty::FnDef(did, gargs) = fty.kind() {
            let decl = self.path(*did);
            self.j.kv_str("decl", &decl);
            self.j.comma();
            // generic args
            self.j.key("gargs");
            self.j.raw("[");
            for a in gargs.iter() {
                let s = with_no_trimmed_paths!(a.to_string());
                self.j.str(&s);
                self.j.comma();
            }
            self.j.trim_comma();
            self.j.raw("]");
            self.j.comma();
            // the trait (if a trait method) and self type
            if let Some(tr) = tcx.trait_of_assoc(*did) {
                let tp = self.path(tr);
                self.j.kv_str("trait", &tp);
                self.j.comma();
            } else if let Some(imp) = tcx.impl_of_assoc(*did) {
                let st = self.ty_str(tcx.type_of(imp).instantiate_identity().skip_normalization());
                self.j.kv_str("impl_self", &st);
                self.j.comma();
            }
            let env = ty::TypingEnv::post_analysis(tcx, owner);
            let resolved = match tcx.try_normalize_erasing_regions(env, ty::Unnormalized::new_wip(*gargs)) {
                Ok(na) => match ty::Instance::try_resolve(tcx, env, *did, na) {
                    Ok(Some(inst)) => Some(inst.def_id()),
                    _ => None,
                },
                Err(_) => None,
            };
            match resolved {
                Some(r) => {
                    let rp = self.path(r);
                    self.j.kv_str("resolved", &rp);
                    self.j.comma();
                    self.j.kv_raw("local", if r.is_local() { "true" } else { "false" });
                }
                None => self.j.kv_raw("resolved", "null"),
            }
        } else {
            self.j.kv_raw("decl", "null");
            self.j.comma();
            let t = self.ty_str(fty);
            self.j.kv_str("fnptr_ty", &t);
            self.j.comma();
            self.j.key("ptr");
            self.operand(owner, body, func);
        }
        self.j.raw("}");
    }

    // ---- bodies

    fn body(&mut self, def: LocalDefId, body: &mir::Body<'tcx>) {
        let tcx = self.tcx;
        let owner = def.to_def_id();
        let kind = tcx.def_kind(def);
        self.j.raw("{");
        let id = self.path(owner);
        self.j.kv_str("id", &id);
        self.j.comma();
        let ks = match kind {
            DefKind::Fn => "fn".to_string(),
            DefKind::AssocFn => "assoc_fn".to_string(),
            DefKind::Closure => {
                if tcx.is_coroutine(owner) {
                    "coroutine".to_string()
                } else {
                    "closure".to_string()
                }
            }
            DefKind::Const { .. } => "const".to_string(),
            DefKind::AssocConst { .. } => "assoc_const".to_string(),
            DefKind::Static { .. } => "static".to_string(),
            DefKind::AnonConst => "anon_const".to_string(),
            DefKind::InlineConst => "inline_const".to_string(),
            other => format!("{:?}", other),
        };
        self.j.kv_str("kind", &ks);
        self.j.comma();
        match tcx.opt_local_parent(def) {
            Some(p) if matches!(kind, DefKind::Closure | DefKind::InlineConst | DefKind::AnonConst) => {
                let pp = self.path(p.to_def_id());
                self.j.kv_str("parent", &pp);
            }
            _ => self.j.kv_raw("parent", "null"),
        }
        self.j.comma();
        // impl self type / trait for assoc fns
        if matches!(kind, DefKind::AssocFn) {
            if let Some(imp) = tcx.impl_of_assoc(owner) {
                let st = self.ty_str(tcx.type_of(imp).instantiate_identity().skip_normalization());
                self.j.kv_str("impl_self", &st);
                self.j.comma();
                if let Some(tr) = tcx.impl_opt_trait_ref(imp) {
                    let tp = self.path(tr.skip_binder().def_id);
                    self.j.kv_str("impl_trait", &tp);
                    self.j.comma();
                }
            }
        }
        let sp = self.span_str(body.span);
        self.j.kv_str("span", &sp);
        self.j.comma();
        self.j.kv_raw("generic", if tcx.generics_of(owner).requires_monomorphization(tcx) { "true" } else { "false" });
        self.j.comma();
        self.j.kv_raw("arg_count", &format!("{}", body.arg_count));
        self.j.comma();
        // locals
        self.j.key("locals");
        self.j.raw("[");
        for (_l, d) in body.local_decls.iter_enumerated() {
            let t = self.ty_str(d.ty);
            self.j.raw("{");
            self.j.kv_str("ty", &t);
            self.j.comma();
            self.j.kv_raw("mut", if d.mutability.is_mut() { "true" } else { "false" });
            self.j.raw("}");
            self.j.comma();
        }
        self.j.trim_comma();
        self.j.raw("]");
        self.j.comma();
        // debug names
        self.j.key("vars");
        self.j.raw("[");
        for v in body.var_debug_info.iter() {
            self.j.raw("{");
            self.j.kv_str("name", v.name.as_str());
            self.j.comma();
            match &v.value {
                mir::VarDebugInfoContents::Place(p) => {
                    self.j.key("place");
                    self.place(body, *p);
                }
                mir::VarDebugInfoContents::Const(c) => {
                    self.j.key("const");
                    self.constant(owner, c);
                }
            }
            if let Some(ai) = v.argument_index {
                self.j.comma();
                self.j.kv_raw("arg", &format!("{}", ai));
            }
            self.j.raw("}");
            self.j.comma();
        }
        self.j.trim_comma();
        self.j.raw("]");
        self.j.comma();
        // blocks
        self.j.key("blocks");
        self.j.raw("[");
        for (_bb, data) in body.basic_blocks.iter_enumerated() {
            self.j.raw("{");
            if data.is_cleanup {
                self.j.kv_raw("cleanup", "true");
                self.j.comma();
            }
            self.j.key("stmts");
            self.j.raw("[");
            for st in data.statements.iter() {
                match &st.kind {
                    mir::StatementKind::Assign(b) => {
                        let (p, rv) = &**b;
                        self.j.raw("{");
                        self.j.key("p");
                        self.place(body, *p);
                        self.j.comma();
                        self.j.key("rv");
                        self.rvalue(owner, body, rv);
                        self.j.comma();
                        let sp = self.span_str(st.source_info.span);
                        self.j.kv_str("sp", &sp);
                        if st.source_info.span.from_expansion() {
                            self.j.comma();
                            self.j.kv_raw("exp", "true");
                        }
                        self.j.raw("}");
                        self.j.comma();
                    }
                    mir::StatementKind::SetDiscriminant { place, variant_index } => {
                        self.j.raw("{");
                        self.j.key("p");
                        self.place(body, **place);
                        self.j.comma();
                        self.j.kv_raw("setdiscr", &format!("{}", variant_index.as_u32()));
                        self.j.raw("}");
                        self.j.comma();
                    }
                    _ => {}
                }
            }
            self.j.trim_comma();
            self.j.raw("]");
            self.j.comma();
            self.j.key("term");
            match &data.terminator {
                Some(t) => self.terminator(owner, body, t),
                None => self.j.raw("null"),
            }
            self.j.raw("}");
            self.j.comma();
        }
        self.j.trim_comma();
        self.j.raw("]");
        self.j.raw("}");
    }

    fn terminator(&mut self, owner: DefId, body: &mir::Body<'tcx>, t: &mir::Terminator<'tcx>) {
        self.j.raw("{");
        match &t.kind {
            mir::TerminatorKind::Goto { target } => {
                self.j.kv_str("k", "goto");
                self.j.comma();
                self.j.kv_raw("t", &format!("{}", target.as_u32()));
            }
            mir::TerminatorKind::SwitchInt { discr, targets } => {
                self.j.kv_str("k", "switch");
                self.j.comma();
                self.j.key("discr");
                self.operand(owner, body, discr);
                self.j.comma();
                let dt = self.ty_str(discr.ty(&body.local_decls, self.tcx));
                self.j.kv_str("ty", &dt);
                self.j.comma();
                self.j.key("targets");
                self.j.raw("[");
                for (v, bb) in targets.iter() {
                    self.j.raw(&format!("[\"{}\",{}],", v, bb.as_u32()));
                }
                self.j.trim_comma();
                self.j.raw("]");
                self.j.comma();
                self.j.kv_raw("otherwise", &format!("{}", targets.otherwise().as_u32()));
            }
            mir::TerminatorKind::UnwindResume => self.j.kv_str("k", "resume"),
            mir::TerminatorKind::UnwindTerminate(_) => self.j.kv_str("k", "terminate"),
            mir::TerminatorKind::Return => self.j.kv_str("k", "return"),
            mir::TerminatorKind::Unreachable => self.j.kv_str("k", "unreachable"),
            mir::TerminatorKind::Drop { place, target, .. } => {
                self.j.kv_str("k", "drop");
                self.j.comma();
                self.j.key("place");
                self.place(body, *place);
                self.j.comma();
                self.j.kv_raw("t", &format!("{}", target.as_u32()));
            }
            mir::TerminatorKind::Call { func, args, destination, target, unwind, fn_span, .. } => {
                self.j.kv_str("k", "call");
                self.j.comma();
                self.j.key("callee");
                self.callee(owner, body, func);
                self.j.comma();
                self.j.key("args");
                self.j.raw("[");
                for a in args.iter() {
                    self.operand(owner, body, &a.node);
                    self.j.comma();
                }
                self.j.trim_comma();
                self.j.raw("]");
                self.j.comma();
                self.j.key("dest");
                self.place(body, *destination);
                self.j.comma();
                match target {
                    Some(bb) => self.j.kv_raw("t", &format!("{}", bb.as_u32())),
                    None => self.j.kv_raw("t", "null"),
                }
                self.j.comma();
                match unwind {
                    mir::UnwindAction::Cleanup(bb) => self.j.kv_raw("unwind", &format!("{}", bb.as_u32())),
                    _ => self.j.kv_raw("unwind", "null"),
                }
                self.j.comma();
                let sp = self.span_str(*fn_span);
                self.j.kv_str("sp", &sp);
                if t.source_info.span.from_expansion() {
                    self.j.comma();
                    self.j.kv_raw("exp", "true");
                }
            }
            mir::TerminatorKind::TailCall { func, args, fn_span } => {
                self.j.kv_str("k", "call");
                self.j.comma();
                self.j.kv_raw("tail", "true");
                self.j.comma();
                self.j.key("callee");
                self.callee(owner, body, func);
                self.j.comma();
                self.j.key("args");
                self.j.raw("[");
                for a in args.iter() {
                    self.operand(owner, body, &a.node);
                    self.j.comma();
                }
                self.j.trim_comma();
                self.j.raw("]");
                self.j.comma();
                self.j.raw("\"dest\":[0],\"t\":null,\"unwind\":null,");
                let sp = self.span_str(*fn_span);
                self.j.kv_str("sp", &sp);
            }
            mir::TerminatorKind::Assert { cond, expected, msg, target, .. } => {
                self.j.kv_str("k", "assert");
                self.j.comma();
                self.j.key("cond");
                self.operand(owner, body, cond);
                self.j.comma();
                self.j.kv_raw("expected", if *expected { "true" } else { "false" });
                self.j.comma();
                let (kind, ops): (String, Vec<&mir::Operand<'tcx>>) = match &**msg {
                    mir::AssertKind::BoundsCheck { len, index } => ("BoundsCheck".into(), vec![len, index]),
                    mir::AssertKind::Overflow(op, a, b) => (format!("Overflow({:?})", op), vec![a, b]),
                    mir::AssertKind::OverflowNeg(a) => ("OverflowNeg".into(), vec![a]),
                    mir::AssertKind::DivisionByZero(a) => ("DivisionByZero".into(), vec![a]),
                    mir::AssertKind::RemainderByZero(a) => ("RemainderByZero".into(), vec![a]),
                    mir::AssertKind::MisalignedPointerDereference { .. } => ("MisalignedPointer".into(), vec![]),
                    mir::AssertKind::NullPointerDereference => ("NullPointer".into(), vec![]),
                    mir::AssertKind::InvalidEnumConstruction(_) => ("InvalidEnum".into(), vec![]),
                    _ => ("Resumed".into(), vec![]),
                };
                self.j.kv_str("msg", &kind);
                self.j.comma();
                self.j.key("ops");
                self.j.raw("[");
                for o in ops {
                    self.operand(owner, body, o);
                    self.j.comma();
                }
                self.j.trim_comma();
                self.j.raw("]");
                self.j.comma();
                self.j.kv_raw("t", &format!("{}", target.as_u32()));
                self.j.comma();
                let sp = self.span_str(t.source_info.span);
                self.j.kv_str("sp", &sp);
                if t.source_info.span.from_expansion() {
                    self.j.comma();
                    self.j.kv_raw("exp", "true");
                }
            }
            mir::TerminatorKind::Yield { value, resume, resume_arg, .. } => {
                self.j.kv_str("k", "yield");
                self.j.comma();
                self.j.key("value");
                self.operand(owner, body, value);
                self.j.comma();
                self.j.key("resume_arg");
                self.place(body, *resume_arg);
                self.j.comma();
                self.j.kv_raw("t", &format!("{}", resume.as_u32()));
            }
            mir::TerminatorKind::CoroutineDrop => self.j.kv_str("k", "coroutine_drop"),
            mir::TerminatorKind::FalseEdge { real_target, imaginary_target } => {
                self.j.kv_str("k", "falseedge");
                self.j.comma();
                self.j.kv_raw("t", &format!("{}", real_target.as_u32()));
                self.j.comma();
                self.j.kv_raw("imag", &format!("{}", imaginary_target.as_u32()));
            }
            mir::TerminatorKind::FalseUnwind { real_target, .. } => {
                self.j.kv_str("k", "falseunwind");
                self.j.comma();
                self.j.kv_raw("t", &format!("{}", real_target.as_u32()));
            }
            mir::TerminatorKind::InlineAsm { targets, .. } => {
                self.j.kv_str("k", "asm");
                self.j.comma();
                self.j.key("targets");
                self.j.raw("[");
                for bb in targets.iter() {
                    self.j.raw(&format!("{},", bb.as_u32()));
                }
                self.j.trim_comma();
                self.j.raw("]");
            }
        }
        self.j.raw("}");
    }

    // ---- crate-level tables

    fn adts(&mut self) {
        let tcx = self.tcx;
        self.j.key("adts");
        self.j.raw("{");
        for ld in tcx.hir_crate_items(()).definitions() {
            let kind = tcx.def_kind(ld);
            if !matches!(kind, DefKind::Struct | DefKind::Enum | DefKind::Union) {
                continue;
            }
            let did = ld.to_def_id();
            let adt = tcx.adt_def(did);
            let p = self.path(did);
            self.j.key(&p);
            self.j.raw("{");
            self.j.kv_str("kind", match kind {
                DefKind::Struct => "struct",
                DefKind::Enum => "enum",
                _ => "union",
            });
            self.j.comma();
            self.j.key("variants");
            self.j.raw("[");
            for v in adt.variants().iter() {
                self.j.raw("{");
                self.j.kv_str("name", v.name.as_str());
                self.j.comma();
                match v.discr {
                    ty::VariantDiscr::Explicit(_) | ty::VariantDiscr::Relative(_) => {}
                }
                self.j.key("fields");
                self.j.raw("[");
                for f in v.fields.iter() {
                    self.j.raw("{");
                    self.j.kv_str("name", f.name.as_str());
                    self.j.comma();
                    let t = self.ty_str(tcx.type_of(f.did).instantiate_identity().skip_normalization());
                    self.j.kv_str("ty", &t);
                    self.j.raw("}");
                    self.j.comma();
                }
                self.j.trim_comma();
                self.j.raw("]");
                self.j.raw("}");
                self.j.comma();
            }
            self.j.trim_comma();
            self.j.raw("]");
            self.j.raw("}");
            self.j.comma();
        }
        self.j.trim_comma();
        self.j.raw("}");
    }

    fn impls(&mut self) {
        let tcx = self.tcx;
        self.j.key("impls");
        self.j.raw("[");
        for ld in tcx.hir_crate_items(()).definitions() {
            if !matches!(tcx.def_kind(ld), DefKind::Impl { .. }) {
                continue;
            }
            let did = ld.to_def_id();
            self.j.raw("{");
            match tcx.impl_opt_trait_ref(did) {
                Some(tr) => {
                    let tp = self.path(tr.skip_binder().def_id);
                    self.j.kv_str("trait", &tp);
                }
                None => self.j.kv_raw("trait", "null"),
            }
            self.j.comma();
            let st = self.ty_str(tcx.type_of(did).instantiate_identity().skip_normalization());
            self.j.kv_str("self_ty", &st);
            self.j.comma();
            self.j.kv_raw("auto_derived", if tcx.is_automatically_derived(did) { "true" } else { "false" });
            self.j.comma();
            self.j.key("methods");
            self.j.raw("{");
            for item in tcx.associated_items(did).in_definition_order() {
                if matches!(item.kind, ty::AssocKind::Fn { .. }) {
                    let name = item.name().to_string();
                    let mp = self.path(item.def_id);
                    self.j.kv_str(&name, &mp);
                    self.j.comma();
                }
            }
            self.j.trim_comma();
            self.j.raw("}");
            self.j.raw("}");
            self.j.comma();
        }
        self.j.trim_comma();
        self.j.raw("]");
    }

    fn fn_sigs(&mut self) {
        // declared signatures of every local fn (the locals table gives the same
        // for bodies; this also covers trait method declarations)
        let tcx = self.tcx;
        self.j.key("sigs");
        self.j.raw("{");
        for ld in tcx.hir_crate_items(()).definitions() {
            if !matches!(tcx.def_kind(ld), DefKind::Fn | DefKind::AssocFn) {
                continue;
            }
            let did = ld.to_def_id();
            let sig = tcx.fn_sig(did).instantiate_identity().skip_normalization().skip_binder();
            let p = self.path(did);
            self.j.key(&p);
            self.j.raw("{");
            self.j.key("inputs");
            self.j.raw("[");
            for t in sig.inputs() {
                let s = self.ty_str(*t);
                self.j.str(&s);
                self.j.comma();
            }
            self.j.trim_comma();
            self.j.raw("]");
            self.j.comma();
            let o = self.ty_str(sig.output());
            self.j.kv_str("output", &o);
            self.j.comma();
            self.j.kv_raw("async", if tcx.asyncness(did).is_async() { "true" } else { "false" });
            self.j.comma();
            let vis = tcx.visibility(did);
            self.j.kv_raw("pub", if vis.is_public() { "true" } else { "false" });
            self.j.raw("}");
            self.j.comma();
        }
        self.j.trim_comma();
        self.j.raw("}");
    }

    fn consts(&mut self) {
        // evaluated values of the crate's named constants; runs AFTER all bodies
        // have been dumped because const evaluation steals mir_built
        let tcx = self.tcx;
        self.j.key("consts");
        self.j.raw("{");
        for ld in tcx.hir_crate_items(()).definitions() {
            let kind = tcx.def_kind(ld);
            if !matches!(kind, DefKind::Const { .. } | DefKind::AssocConst { .. }) {
                continue;
            }
            let did = ld.to_def_id();
            if tcx.generics_of(did).requires_monomorphization(tcx) {
                continue;
            }
            // assoc consts in traits without default have no body
            if matches!(kind, DefKind::AssocConst { .. }) && tcx.trait_of_assoc(did).is_some() {
                continue;
            }
            let t = tcx.type_of(did).instantiate_identity().skip_normalization();
            let simple = t.is_integral()
                || t.is_bool()
                || t.is_char()
                || matches!(t.kind(), ty::Ref(_, i, _) if i.is_str() || matches!(i.kind(), ty::Slice(_) | ty::Array(..)))
                || matches!(t.kind(), ty::Adt(a, _) if a.is_struct() && a.non_enum_variant().fields.len() == 1)
                || matches!(t.kind(), ty::Array(..));
            if !simple {
                continue;
            }
            if let Ok(v) = tcx.const_eval_poly(did) {
                let p = self.path(did);
                self.j.key(&p);
                self.const_value(v, t);
                self.j.comma();
            }
        }
        self.j.trim_comma();
        self.j.raw("}");
    }
}

trait HasParamPub {
    fn has_non_region_param_pub(&self) -> bool;
}
impl<'tcx> HasParamPub for ty::Const<'tcx> {
    fn has_non_region_param_pub(&self) -> bool {
        use rustc_middle::ty::TypeVisitableExt;
        self.has_non_region_param()
    }
}


fn dump_all<'tcx>(tcx: TyCtxt<'tcx>, krate: &str, kind: &str) -> String {
        let mut d = Dumper { tcx, j: J::new() };
        d.j.raw("{");
        d.j.kv_str("crate", krate);
        d.j.comma();
        d.j.kv_str("unit_kind", kind);
        d.j.comma();
        d.j.kv_raw("pid", &format!("{}", std::process::id()));
        d.j.comma();
        // 1. Clone every built MIR body BEFORE anything else is queried: printing types, signatures or
        //    evaluating constants can trigger borrowck/promotion of some body, which steals its mir_built.
        //    (Bodies consumed while another body was being built are taken from the provider's side table.)
        let mut cloned: Vec<(LocalDefId, mir::Body<'tcx>)> = Vec::new();
        let mut stolen = 0usize;
        for def in tcx.hir_body_owners() {
            let kind = tcx.def_kind(def);
            if matches!(kind, DefKind::AnonConst | DefKind::InlineConst) {
                // array lengths / inline consts: not needed
                continue;
            }
            let steal = tcx.mir_built(def);
            if let Some(b) = saved_body(def) {
                cloned.push((def, b.clone()));
                continue;
            }
            if steal.is_stolen() {
                stolen += 1;
                continue;
            }
            let b: mir::Body<'tcx> = steal.borrow().clone();
            cloned.push((def, b));
        }
        d.j.kv_raw("stolen", &format!("{}", stolen));
        d.j.comma();
        d.adts();
        d.j.comma();
        d.impls();
        d.j.comma();
        d.fn_sigs();
        d.j.comma();
        d.j.key("bodies");
        d.j.raw("[");
        let mut n = 0usize;
        for (def, body) in cloned.iter() {
            d.body(*def, body);
            d.j.comma();
            n += 1;
        }
        d.j.trim_comma();
        d.j.raw("]");
        d.j.comma();
        d.consts();
        d.j.comma();
        d.j.kv_raw("n_bodies", &format!("{}", n));
        d.j.raw("}");
        d.j.s
}

// Built MIR is cloned at the moment it is produced: a wrapper around the `mir_built` provider copies each body into
// this side table before any later query (promotion for const evaluation, borrowck) can steal it.
struct Saved(Vec<(LocalDefId, *mut ())>);
unsafe impl Send for Saved {}
static SAVED: std::sync::Mutex<Saved> = std::sync::Mutex::new(Saved(Vec::new()));
static ORIG_MIR_BUILT: std::sync::OnceLock<
    for<'tcx> fn(TyCtxt<'tcx>, LocalDefId) -> &'tcx rustc_data_structures::steal::Steal<mir::Body<'tcx>>,
> = std::sync::OnceLock::new();

fn saving_mir_built<'tcx>(tcx: TyCtxt<'tcx>, def: LocalDefId) -> &'tcx rustc_data_structures::steal::Steal<mir::Body<'tcx>> {
    let orig = ORIG_MIR_BUILT.get().expect("provider saved");
    let steal = orig(tcx, def);
    let copy: Box<mir::Body<'tcx>> = Box::new(steal.borrow().clone());
    let raw = Box::into_raw(copy) as *mut ();
    SAVED.lock().unwrap().0.push((def, raw));
    steal
}

fn saved_body<'tcx>(def: LocalDefId) -> Option<&'tcx mir::Body<'tcx>> {
    let g = SAVED.lock().unwrap();
    for (d, p) in g.0.iter() {
        if *d == def {
            // the copies live until the process exits; the lifetime is that of the compilation session
            return Some(unsafe { &*(*p as *const mir::Body<'tcx>) });
        }
    }
    None
}

struct Cb {
    out_dir: Option<String>,
    kind: String,
}

impl Callbacks for Cb {
    fn config(&mut self, config: &mut rustc_interface::interface::Config) {
        if self.out_dir.is_some() {
            config.override_queries = Some(|_sess, providers| {
                let _ = ORIG_MIR_BUILT.set(providers.queries.mir_built);
                providers.queries.mir_built = saving_mir_built;
            });
        }
    }

    fn after_expansion<'tcx>(&mut self, _c: &rustc_interface::interface::Compiler, tcx: TyCtxt<'tcx>) -> Compilation {
        let Some(dir) = self.out_dir.clone() else {
            return Compilation::Continue;
        };
        let krate = tcx.crate_name(rustc_hir::def_id::LOCAL_CRATE).to_string();
        if krate.starts_with("build_script") {
            return Compilation::Continue;
        }
        let kind = self.kind.clone();
        let text: String = rustc_middle::ty::print::with_resolve_crate_name!(with_no_trimmed_paths!(dump_all(tcx, &krate, &kind)));
        let path = format!("{}/{}-{}-{}.json", dir, krate, self.kind, std::process::id());
        let tmp = format!("{}.tmp", path);
        std::fs::write(&tmp, text.as_bytes()).expect("write facts");
        std::fs::rename(&tmp, &path).expect("rename facts");
        Compilation::Continue
    }
}

fn main() {
    // argv: [driver, rustc-path, rustc args...]
    let args: Vec<String> = std::env::args().skip(1).collect();
    let mut kind = "lib".to_string();
    let mut has_crate = false;
    let mut i = 0;
    while i < args.len() {
        if args[i] == "--crate-type" && i + 1 < args.len() {
            kind = args[i + 1].clone();
        }
        if args[i] == "--crate-name" && i + 1 < args.len() && args[i + 1] != "___" {
            has_crate = true;
        }
        if args[i] == "--test" {
            kind = "test".to_string();
        }
        i += 1;
    }
    let out_dir = if has_crate { std::env::var("ERBIUM_FACTS_DIR").ok() } else { None };
    let mut cb = Cb { out_dir, kind };
    rustc_driver::run_compiler(&args, &mut cb);
}
